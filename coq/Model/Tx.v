(* Mirrors bitcoinutils/transactions.py: TxInput (75-196), TxWitnessInput (216-235), TxOutput (268-337),
   Transaction.__init__/from_raw/copy (496-621), to_bytes/get_txid/get_wtxid/get_size/get_vsize (1024-1120). *)
From Coq Require Import ZArith String List Bool.
From BU Require Import Lib.Bytes Gen.Tables Model.Varint Model.Script.
Import ListNotations.
Open Scope list_scope.
Open Scope Z_scope.

Record txin := { ti_txid : bytes;          (* the 32 bytes of the hex string, display order *)
                 ti_vout : Z;
                 ti_script : list tok;
                 ti_seq : bytes }.
Record txout := { to_amount : Z; to_script : list tok }.
Record tx := { tx_version : bytes;
               tx_inputs : list txin;
               tx_outputs : list txout;
               tx_locktime : bytes;
               tx_segwit : bool;
               tx_witnesses : list (list bytes) }.

Definition null_txid : bytes := repeat 0 32.
Definition is_null_txid (t : bytes) : bool := bytes_eqb t null_txid.

(* struct.pack("<L"/"<I", n): error outside 0..2^32-1 *)
Definition pack_u32 (n : Z) : option bytes :=
  if (0 <=? n) && (n <? 4294967296) then Some (le_bytes 4 n) else None.
(* struct.pack("<q", n): two's complement, error outside -2^63..2^63-1 *)
Definition pack_i64 (n : Z) : option bytes :=
  if (-9223372036854775808 <=? n) && (n <? 9223372036854775808)
  then Some (le_bytes 8 (n mod 18446744073709551616)) else None.
(* struct.pack("<Q", n) *)
Definition pack_u64 (n : Z) : option bytes :=
  if (0 <=? n) && (n <? 18446744073709551616) then Some (le_bytes 8 n) else None.
(* struct.pack("<i", n) *)
Definition pack_i32 (n : Z) : option bytes :=
  if (-2147483648 <=? n) && (n <? 2147483648) then Some (le_bytes 4 (n mod 4294967296)) else None.

Definition obind {A B} (o : option A) (f : A -> option B) : option B :=
  match o with Some a => f a | None => None end.
Notation "'do' x <- o ; k" := (obind o (fun x => k)) (at level 200, x pattern, o at level 100, k at level 200).

(* coinbase: script_sig.script[0] must be a hex string *)
Definition coinbase_script_bytes (s : list tok) : option bytes :=
  match s with
  | TData d :: _ => Some d
  | _ => None
  end.

Definition txin_script_bytes (i : txin) : option bytes :=
  if is_null_txid (ti_txid i) then coinbase_script_bytes (ti_script i) else to_bytes (ti_script i).

Definition txin_to_bytes (i : txin) : option bytes :=
  do vo <- pack_u32 (ti_vout i);
  do sb <- txin_script_bytes i;
  do ln <- encode_varint (Z.of_nat (length sb));
  Some (rev (ti_txid i) ++ vo ++ ln ++ sb ++ ti_seq i).

Definition txout_to_bytes (o : txout) : option bytes :=
  do am <- pack_i64 (to_amount o);
  do sb <- to_bytes (to_script o);
  do ln <- encode_varint (Z.of_nat (length sb));
  Some (am ++ ln ++ sb).

Fixpoint concat_opt {A} (f : A -> option bytes) (l : list A) : option bytes :=
  match l with
  | [] => Some []
  | x :: r => do a <- f x; do b <- concat_opt f r; Some (a ++ b)
  end.

(* TxWitnessInput.to_bytes *)
Definition witness_to_bytes (stack : list bytes) : option bytes := concat_opt prepend_compact_size stack.

Definition witness_with_count (stack : list bytes) : option bytes :=
  do c <- encode_varint (Z.of_nat (length stack));
  do w <- witness_to_bytes stack;
  Some (c ++ w).

Definition tx_to_bytes (t : tx) (has_segwit : bool) : option bytes :=
  do nin <- encode_varint (Z.of_nat (length (tx_inputs t)));
  do nout <- encode_varint (Z.of_nat (length (tx_outputs t)));
  do ins <- concat_opt txin_to_bytes (tx_inputs t);
  do outs <- concat_opt txout_to_bytes (tx_outputs t);
  do wits <- (if has_segwit then concat_opt witness_with_count (tx_witnesses t) else Some []);
  Some (tx_version t ++ (if has_segwit then [0; 1] else []) ++ nin ++ ins ++ nout ++ outs ++ wits ++ tx_locktime t).

Definition tx_serialize (t : tx) : option bytes := tx_to_bytes t (tx_segwit t).

Section Hashed.
  Variable sha256 : bytes -> bytes.
  Definition dsha (b : bytes) : bytes := sha256 (sha256 b).
  Definition get_txid (t : tx) : option bytes := option_map (fun b => rev (dsha b)) (tx_to_bytes t false).
  Definition get_wtxid (t : tx) : option bytes := option_map (fun b => rev (dsha b)) (tx_serialize t).
End Hashed.

Definition get_size (t : tx) : option Z := option_map (fun b => Z.of_nat (length b)) (tx_serialize t).

(* get_vsize: re-serialises the witnesses, float division, math.ceil (exact below 2^53) *)
Definition get_vsize (t : tx) : option Z :=
  if negb (tx_segwit t) then get_size t
  else
    do full <- get_size t;
    do wd <- concat_opt witness_with_count (tx_witnesses t);
    let extra := 2 + Z.of_nat (length wd) in
    let size := full - extra in
    (* int(math.ceil(size + extra / 4)) *)
    Some (size + (extra + 3) / 4).

(* ---- parsing ---- *)

(* struct.unpack_from(f"{n}s", buf, cursor): error if fewer than n bytes remain *)
Definition take (n : nat) (b : bytes) : option (bytes * bytes) :=
  if (n <=? length b)%nat then Some (firstn n b, skipn n b) else None.

Definition parse_varint (b : bytes) : option (Z * bytes) :=
  do (v, k) <- parse_compact_size b; Some (v, skipn k b).

Definition txin_from_raw (b : bytes) (has_segwit : bool) : option (txin * bytes) :=
  do (txid_le, b1) <- take 32 b;
  do (vout, b2) <- take 4 b1;
  do (slen, b3) <- parse_varint b2;
  do (sc, b4) <- take (Z.to_nat slen) b3;
  do (sq, b5) <- take 4 b4;
  let txid := rev txid_le in
  let script := if is_null_txid txid then [TData sc] else from_raw sc has_segwit in
  Some ({| ti_txid := txid; ti_vout := le_val vout; ti_script := script; ti_seq := sq |}, b5).

Definition txout_from_raw (b : bytes) (has_segwit : bool) : option (txout * bytes) :=
  do (am, b1) <- take 8 b;
  do (slen, b2) <- parse_varint b1;
  do (sc, b3) <- take (Z.to_nat slen) b2;
  Some ({| to_amount := le_val am; to_script := from_raw sc has_segwit |}, b3).

Fixpoint parse_n {A} (p : bytes -> option (A * bytes)) (n : nat) (b : bytes) : option (list A * bytes) :=
  match n with
  | O => Some ([], b)
  | S n' => do (x, b1) <- p b; do (r, b2) <- parse_n p n' b1; Some (x :: r, b2)
  end.

(* a witness item: rawtx[cursor:cursor+item_size] truncates silently *)
Definition witness_item_from_raw (b : bytes) : option (bytes * bytes) :=
  do (sz, b1) <- parse_varint b; Some (firstn (Z.to_nat sz) b1, skipn (Z.to_nat sz) b1).

Definition witness_from_raw (b : bytes) : option (list bytes * bytes) :=
  do (n, b1) <- parse_varint b; parse_n witness_item_from_raw (Z.to_nat n) b1.

Definition tx_from_raw (raw : bytes) : option tx :=
  let version := firstn 4 raw in
  let b0 := skipn 4 raw in
  let has_segwit := bytes_eqb (firstn 2 b0) [0; 1] in
  let b1 := if has_segwit then skipn 2 b0 else b0 in
  do (nin, b2) <- parse_varint b1;
  do (ins, b3) <- parse_n (fun b => txin_from_raw b has_segwit) (Z.to_nat nin) b2;
  do (nout, b4) <- parse_varint b3;
  do (outs, b5) <- parse_n (fun b => txout_from_raw b has_segwit) (Z.to_nat nout) b4;
  do (wits, b6) <- (if has_segwit then parse_n witness_from_raw (Z.to_nat nin) b5 else Some ([], b5));
  Some {| tx_version := version; tx_inputs := ins; tx_outputs := outs; tx_locktime := firstn 4 b6;
          tx_segwit := has_segwit; tx_witnesses := wits |}.

(* the copy helpers (after the repair of D10 they are deep copies: identity on values) *)
Definition txin_copy (i : txin) : txin := i.
Definition txout_copy (o : txout) : txout := o.
Definition tx_copy (t : tx) : tx :=
  {| tx_version := tx_version t; tx_inputs := map txin_copy (tx_inputs t); tx_outputs := map txout_copy (tx_outputs t);
     tx_locktime := tx_locktime t; tx_segwit := tx_segwit t; tx_witnesses := tx_witnesses t |}.
