(* Mirrors the base58check package (b58encode / b58decode, 1.0.2) that keys.py calls. *)
From Coq Require Import ZArith List Bool.
From BU Require Import Lib.Bytes.
Import ListNotations.
Open Scope Z_scope.

(* b'123456789ABCDEFGHJKLMNPQRSTUVWXYZabcdefghijkmnopqrstuvwxyz' *)
Definition b58_charset : bytes :=
  [49;50;51;52;53;54;55;56;57;65;66;67;68;69;70;71;72;74;75;76;77;78;80;81;82;83;84;85;86;87;88;89;90;
   97;98;99;100;101;102;103;104;105;106;107;109;110;111;112;113;114;115;116;117;118;119;120;121;122].

Fixpoint index_of (c : Z) (l : bytes) : option Z :=
  match l with
  | [] => None
  | x :: r => if x =? c then Some 0 else option_map Z.succ (index_of c r)
  end.

(* val.lstrip(b) : drop leading occurrences, report how many *)
Fixpoint lstrip (c : Z) (l : bytes) : nat * bytes :=
  match l with
  | x :: r => if x =? c then let '(k, t) := lstrip c r in (S k, t) else (O, l)
  | [] => (O, [])
  end.

(* _b58encode_int(acc, default=False): most significant digit first; 0 gives the empty string *)
Fixpoint b58_digits (fuel : nat) (n : Z) : list Z :=
  match fuel with
  | O => []
  | S f => if n <=? 0 then [] else b58_digits f (n / 58) ++ [n mod 58]
  end.

Definition b58encode (val : bytes) : bytes :=
  let '(pad, rest) := lstrip 0 val in
  let acc := be_val rest in
  repeat 49 pad ++ map (fun d => nth (Z.to_nat d) b58_charset 0) (b58_digits (S (Z.to_nat (Z.log2 acc))) acc).

(* _b58decode_int: charset.index(char) raises ValueError for a character outside the alphabet *)
Fixpoint b58decode_int (acc : Z) (l : bytes) : option Z :=
  match l with
  | [] => Some acc
  | c :: r => match index_of c b58_charset with
              | Some d => b58decode_int (acc * 58 + d) r
              | None => None
              end
  end.

Definition b58decode (val : bytes) : option bytes :=
  let '(pad, rest) := lstrip 49 val in
  match b58decode_int 0 rest with
  | None => None
  | Some acc => Some (repeat 0 pad ++ be_bytes (nbytes acc) acc)
  end.

Section Check.
  Variable sha256 : bytes -> bytes.
  Definition checksum4 (data : bytes) : bytes := firstn 4 (sha256 (sha256 data)).
  (* Base58Check(payload) as the formats define it *)
  Definition b58check_encode (payload : bytes) : bytes := b58encode (payload ++ checksum4 payload).
End Check.
