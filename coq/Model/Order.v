(* The pure half of C13: signing inputs and attaching scripts / witnesses in any order.
   An operation computes the digest of input i on the CURRENT transaction (legacy, segwit v0 or taproot,
   any hash type), turns it into a signature with a deterministic signer, and stores the result in the
   scriptSig of input i or in witness slot i (the harness drives the real API the same way). *)
From Coq Require Import ZArith String List Bool.
From BU Require Import Lib.Bytes Model.Script Model.Tx Model.Sighash.
Import ListNotations.
Open Scope list_scope.
Open Scope Z_scope.

Inductive sig_kind :=
| KLegacy (script : list tok) (ht : Z)
| KSegwit (script : list tok) (amount : Z) (ht : Z)
| KTaproot (spks : list (list tok)) (amounts : list Z) (ext : Z) (leaf : list tok) (ht : Z).

Record op := { op_index : nat; op_kind : sig_kind; op_to_witness : bool }.

Section Order.
  Variable sha256 : bytes -> bytes.
  (* the signer: any deterministic function of (input index, digest) *)
  Variable signer : nat -> bytes -> bytes.

  Definition digest_of (t : tx) (i : nat) (k : sig_kind) : option bytes :=
    match k with
    | KLegacy sc ht => legacy_digest sha256 t i sc ht
    | KSegwit sc am ht => segwit_digest sha256 t i sc am ht
    | KTaproot spks ams ext leaf ht => taproot_digest sha256 t i spks ams ext leaf ht
    end.

  Definition set_script_at (t : tx) (i : nat) (s : list tok) : tx :=
    {| tx_version := tx_version t; tx_inputs := replace_nth (tx_inputs t) i (set_script s); tx_outputs := tx_outputs t;
       tx_locktime := tx_locktime t; tx_segwit := tx_segwit t; tx_witnesses := tx_witnesses t |}.
  Definition set_witness_at (t : tx) (i : nat) (w : list bytes) : tx :=
    {| tx_version := tx_version t; tx_inputs := tx_inputs t; tx_outputs := tx_outputs t;
       tx_locktime := tx_locktime t; tx_segwit := tx_segwit t; tx_witnesses := replace_nth (tx_witnesses t) i (fun _ => w) |}.

  (* one operation on the current state; a refused digest leaves the state unchanged *)
  Definition apply_op (t : tx) (o : op) : tx :=
    match digest_of t (op_index o) (op_kind o) with
    | None => t
    | Some d =>
        let sg := signer (op_index o) d in
        if op_to_witness o then set_witness_at t (op_index o) [sg] else set_script_at t (op_index o) [TData sg]
    end.

  Definition run (ops : list op) (t : tx) : tx := fold_left apply_op ops t.
End Order.
