(* Mirrors bitcoinutils/keys.py PrivateKey._sign_input (329-435): the low-R grinding loop and the
   DER re-assembly / low-S rule applied to the DER bytes returned by the external signer. *)
From Coq Require Import ZArith List Bool.
From BU Require Import Lib.Bytes Gen.Tables.
Import ListNotations.
Open Scope Z_scope.

Definition order : Z := params_order.

(* struct.pack("B", x) *)
Definition pack_b (x : Z) : option bytes := if (0 <=? x) && (x <? 256) then Some [x] else None.

(* utils.i_to_b: minimal big-endian bytes ((bit_length + 7) // 8 of them) *)
Definition i_to_b (i : Z) : bytes := be_bytes (nbytes i) i.

Definition idx (l : bytes) (i : nat) : option Z := nth_error l i.   (* l[i]: IndexError *)

Definition obind {A B} (o : option A) (f : A -> option B) : option B :=
  match o with Some a => f a | None => None end.
Notation "'do' x <- o ; k" := (obind o (fun x => k)) (at level 200, x pattern, o at level 100, k at level 200).

(* lines 397-435, on the DER signature [sg] and the hash type *)
Definition normalise (sg : bytes) (sighash : Z) : option bytes :=
  do der_prefix <- idx sg 0;
  do length_total <- idx sg 1;
  do der_type_int <- idx sg 2;
  do length_r <- idx sg 3;
  let lr := Z.to_nat length_r in
  let R := firstn lr (skipn 4 sg) in
  do length_s <- idx sg (5 + lr);
  let S := skipn (5 + lr + 1) sg in
  let s_int := be_val S in
  do res <-
    (if order / 2 <? s_int then
       let new_s_int := order - s_int in
       let new_s0 := i_to_b new_s_int in
       do first <- idx new_s0 0;                      (* new_S[0] *)
       let new_s := if negb (Z.eqb (Z.land first 128) 0) then 0 :: new_s0 else new_s0 in
       Some (length_total - (length_s - Z.of_nat (length new_s)), Z.of_nat (length new_s), new_s)
     else Some (length_total, length_s, S));
  let '(lt, ls, new_s) := res in
  do a <- pack_b der_prefix; do b <- pack_b lt; do c <- pack_b der_type_int; do d <- pack_b length_r;
  do e <- pack_b der_type_int; do f <- pack_b ls; do g <- pack_b sighash;
  Some (a ++ b ++ c ++ d ++ R ++ e ++ f ++ new_s ++ g).

(* the grinding loop: sign with attempt = 0 (no extra entropy), then 1, 2, ... until length_r <> 33.
   [signer k] is the external RFC6979 signer with extra entropy k; the loop is genuinely unbounded,
   so the model carries fuel and reports exhaustion as None. *)
Fixpoint grind (fuel : nat) (signer : Z -> bytes) (attempt : Z) : option bytes :=
  match fuel with
  | O => None
  | S f =>
      let sg := signer attempt in
      match idx sg 3 with
      | None => None
      | Some lr => if lr =? 33 then grind f signer (attempt + 1) else Some sg
      end
  end.

Definition sign_input (fuel : nat) (signer : Z -> bytes) (sighash : Z) : option bytes :=
  do sg <- grind fuel signer 0; normalise sg sighash.
