(* Mirrors bitcoinutils/ripemd160.py: unbounded Python integers, masks only inside rol and at output. *)
From Coq Require Import ZArith List Bool.
From BU Require Import Lib.Bytes Gen.Tables.
Import ListNotations.
Open Scope Z_scope.

Definition fi (x y z i : Z) : Z :=
  if i =? 0 then Z.lxor (Z.lxor x y) z
  else if i =? 1 then Z.lor (Z.land x y) (Z.land (Z.lnot x) z)
  else if i =? 2 then Z.lxor (Z.lor x (Z.lnot y)) z
  else if i =? 3 then Z.lor (Z.land x z) (Z.land y (Z.lnot z))
  else Z.lxor x (Z.lor y (Z.lnot z)).            (* i = 4; other values hit `assert False` *)

Definition mask32 : Z := 4294967295.
Definition rol (x i : Z) : Z :=
  Z.land (Z.lor (Z.shiftl x i) (Z.shiftr (Z.land x mask32) (32 - i))) mask32.

Definition nthz (l : list Z) (i : Z) : Z := nth (Z.to_nat i) l 0.

Record st5 := { sa : Z; sb : Z; sc : Z; sd : Z; se : Z }.

Definition step (x : list Z) (ml rl : list Z) (k : Z) (fidx : Z) (j : Z) (s : st5) : st5 :=
  let a' := rol (sa s + fi (sb s) (sc s) (sd s) fidx + nthz x (nthz ml j) + k) (nthz rl j) + se s in
  {| sa := se s; sb := a'; sc := sb s; sd := rol (sc s) 10; se := sd s |}.

Fixpoint rounds (n : nat) (j : Z) (x : list Z) (l r : st5) : st5 * st5 :=
  match n with
  | O => (l, r)
  | S n' =>
      let rnd := Z.shiftr j 4 in
      let l' := step x rmd_ml rmd_rl (nthz rmd_kl rnd) rnd j l in
      let r' := step x rmd_mr rmd_rr (nthz rmd_kr rnd) (4 - rnd) j r in
      rounds n' (j + 1) x l' r'
  end.

Definition words_le (block : bytes) : list Z :=
  map (fun i => le_val (firstn 4 (skipn (4 * i) block))) (seq 0 16).

Definition compress (h : st5) (block : bytes) : st5 :=
  let x := words_le block in
  let '(l, r) := rounds 80 0 x h h in
  {| sa := sb h + sc l + sd r; sb := sc h + sd l + se r; sc := sd h + se l + sa r;
     sd := se h + sa l + sb r; se := sa h + sb l + sc r |}.

Definition init_state : st5 :=
  {| sa := 1732584193; sb := 4023233417; sc := 2562383102; sd := 271733878; se := 3285377520 |}.

Fixpoint absorb (k : nat) (data : bytes) (h : st5) : st5 :=
  match k with
  | O => h
  | S k' => absorb k' (skipn 64 data) (compress h (firstn 64 data))
  end.

Definition ripemd160 (data : bytes) : bytes :=
  let len := Z.of_nat (length data) in
  let st := absorb (Z.to_nat (Z.shiftr len 6)) data init_state in
  let pad := 128 :: repeat 0 (Z.to_nat (Z.land (119 - len) 63)) in
  (* data[len & ~63:] *)
  let fin := skipn (Z.to_nat (Z.land len (Z.lnot 63))) data ++ pad ++ le_bytes 8 (8 * len) in
  let st' := absorb (Z.to_nat (Z.shiftr (Z.of_nat (length fin)) 6)) fin st in
  concat (map (fun h => le_bytes 4 (Z.land h mask32)) [sa st'; sb st'; sc st'; sd st'; se st']).
