(* Mirrors bitcoinutils/utils.py: ControlBlock (60-110), _generate_merkle_path (113-155),
   get_tag_hashed_merkle_root (158-192), calculate_tweak (374-397), tapleaf/tapbranch hashes (400-414),
   negate_privkey / tweak_taproot_pubkey / tweak_taproot_privkey (417-508); and bitcoinutils/keys.py:
   _sign_taproot_input (438-482), to_taproot_hex / get_taproot_address (674-694, 849-865). *)
From Coq Require Import ZArith String List Bool.
From BU Require Import Lib.Bytes Gen.Tables Model.Varint Model.Script Model.EC Model.Sighash Model.Schnorr.
Import ListNotations.
Open Scope list_scope.
Open Scope Z_scope.

(* the nested-list convention for script trees: a Script, or a Python list of 0, 1, 2 or more elements *)
Inductive tree :=
| TLeaf (s : list tok)
| TList0
| TList1 (t : tree)
| TList2 (a b : tree)
| TListMany.

(* the `scripts` argument of the key/address API: None, a tree, or a raw 32-byte merkle root *)
Inductive scripts_arg := SNone | STree (t : tree) | SRoot (r : bytes).

Section Taproot.
  Variable sha256 : bytes -> bytes.
  Variables (p n : Z) (add : point -> point -> point) (lift : Z -> point) (G : point).
  (* utils.Secp256k1Params._order / ._field: the second copy of the curve parameters the tweak code uses *)
  Variables (order field : Z).
  Let mul (P : point) (k : Z) : point := point_mul_with add P k.
  Let thash := tagged_hash sha256.

  Definition tapleaf_tagged_hash (s : list tok) : option bytes :=
    do sb <- to_bytes s; do ps <- prepend_compact_size sb;
    Some (thash (leaf_version_tapscript :: ps) "TapLeaf").

  Definition tapbranch_tagged_hash (a b : bytes) : bytes :=
    if bytes_ltb a b then thash (a ++ b) "TapBranch" else thash (b ++ a) "TapBranch".

  Fixpoint merkle_root (t : tree) : option bytes :=
    match t with
    | TLeaf s => tapleaf_tagged_hash s
    | TList0 => Some []
    | TList1 t' => merkle_root t'
    | TList2 a b => do l <- merkle_root a; do r <- merkle_root b; Some (tapbranch_tagged_hash l r)
    | TListMany => None
    end.

  (* traverse_level with its leaf counter: returns (bytes, is_path, new counter) *)
  Fixpoint traverse (t : tree) (target : Z) (traversed : Z) : option (bytes * bool * Z) :=
    match t with
    | TLeaf s =>
        if traversed =? target then Some ([], true, traversed + 1)
        else do h <- tapleaf_tagged_hash s; Some (h, false, traversed + 1)
    | TList1 t' => traverse t' target traversed
    | TList2 a b =>
        do (x, x1, c1) <- traverse a target traversed;
        do (y, y1, c2) <- traverse b target c1;
        if x1 then Some (x ++ y, true, c2)
        else if y1 then Some (y ++ x, true, c2)
        else Some (tapbranch_tagged_hash x y, false, c2)
    | TList0 | TListMany => None
    end.

  Definition generate_merkle_path (t : tree) (index : Z) : option bytes :=
    option_map (fun r => fst (fst r)) (traverse t index 0).

  (* truthiness of the scripts argument: None and [] are falsy; bytes are falsy when empty *)
  Definition calculate_tweak (pub : Z * Z) (sc : scripts_arg) : option Z :=
    do kx <- bytes_from_int (fst pub);
    match sc with
    | SNone | STree TList0 | SRoot [] => Some (be_val (thash kx "TapTweak"))
    | SRoot r => Some (be_val (thash (kx ++ r) "TapTweak"))
    | STree t => do root <- merkle_root t; Some (be_val (thash (kx ++ root) "TapTweak"))
    end.

  (* tweak_taproot_pubkey: returns (x, y, is_odd) of the even-normalised output point *)
  Definition tweak_taproot_pubkey (pub : Z * Z) (tweak : Z) : option (Z * Z * bool) :=
    let '(x, y) := pub in
    let y' := if negb (y mod 2 =? 0) then field - y else y in
    match add (Some (x, y')) (mul G tweak) with
    | None => None
    | Some (qx, qy) =>
        let odd := negb (qy mod 2 =? 0) in
        let qy' := if odd then field - qy else qy in
        if (0 <=? qx) && (qx <? 2 ^ 256) && (0 <=? qy') && (qy' <? 2 ^ 256)       (* f"{:064x}" then fromhex *)
        then Some (qx, qy', odd) else None
    end.

  Definition tweak_taproot_privkey (privkey : bytes) (tweak : Z) : option bytes :=
    do (px, py) <- full_pubkey_gen n add G privkey;
    let d := be_val privkey in
    let negated := if py mod 2 =? 0 then d else order - d in
    bytes_from_int ((negated + tweak) mod order).

  (* PublicKey.to_taproot_hex / get_taproot_address: witness program (32 bytes) and the odd flag *)
  Definition to_taproot (pub : Z * Z) (sc : scripts_arg) : option (bytes * bool) :=
    do t <- calculate_tweak pub sc;
    do (qx, qy, odd) <- tweak_taproot_pubkey pub t;
    do xb <- bytes_from_int qx; Some (xb, odd).

  Definition control_block (pub : Z * Z) (t : tree) (index : Z) (is_odd : bool) : option bytes :=
    do path <- generate_merkle_path t index;
    do xb <- bytes_from_int (fst pub);
    if (0 <=? (if is_odd then 1 else 0) + leaf_version_tapscript) && ((if is_odd then 1 else 0) + leaf_version_tapscript <? 256)
    then Some (((if is_odd then 1 else 0) + leaf_version_tapscript) :: xb ++ path) else None.

  (* PrivateKey._sign_taproot_input on the 32 key bytes *)
  Definition sign_taproot (key : bytes) (digest : bytes) (sighash : Z) (sc : scripts_arg) (tweak : bool) : option bytes :=
    do byte_key <-
      (if tweak then
         do pub <- full_pubkey_gen n add G key;      (* get_public_key *)
         do t <- calculate_tweak pub sc;
         tweak_taproot_privkey key t
       else Some key);
    let rand_aux := sha256 (digest ++ byte_key) in
    do sig <- schnorr_sign sha256 p n add lift G digest byte_key rand_aux;
    if sighash =? taproot_sighash_all then Some sig
    else if (0 <=? sighash) && (sighash <? 256) then Some (sig ++ [sighash]) else None.
End Taproot.
