(* A store model of the library's mutable object graph, for the aliasing half of C13.
   Every Python object that can be mutated through public attributes (Script, the list inside a Script,
   TxInput, TxOutput, TxWitnessInput and its stack list, Transaction and its three lists) carries the
   location it lives at; constructors and copy helpers allocate from a counter.  The functions mirror
   transactions.py: TxInput.__init__ (75-93, default script created per object after the repair of D10),
   TxInput.copy (192-196), TxWitnessInput.copy (231-235), TxOutput.copy (333-337), Transaction.copy (614-621),
   script.py Script.copy (279-283). *)
From Coq Require Import ZArith List Bool.
Import ListNotations.

Definition loc := nat.
Definition alloc (A : Type) := nat -> A * nat.        (* state monad over the next free location *)
Definition ret {A} (x : A) : alloc A := fun c => (x, c).
Definition bind {A B} (m : alloc A) (f : A -> alloc B) : alloc B := fun c => let '(x, c') := m c in f x c'.
Definition fresh : alloc loc := fun c => (c, S c).
Notation "'let*' x := m 'in' k" := (bind m (fun x => k)) (at level 200, x pattern, m at level 100, k at level 200).

Record h_script := { sc_obj : loc; sc_list : loc; sc_content : list Z }.   (* content abstracted to numbers *)
Record h_in := { in_obj : loc; in_script : h_script; in_fields : list Z }.
Record h_out := { out_obj : loc; out_script : h_script; out_amount : Z }.
Record h_wit := { wit_obj : loc; wit_stack : loc; wit_items : list Z }.
Record h_tx := { tx_obj : loc; tx_ins_list : loc; tx_outs_list : loc; tx_wits_list : loc;
                 tx_ins : list h_in; tx_outs : list h_out; tx_wits : list h_wit; tx_fields : list Z }.

(* constructors *)
Definition new_script (content : list Z) : alloc h_script :=
  let* o := fresh in let* l := fresh in ret {| sc_obj := o; sc_list := l; sc_content := content |}.
(* TxInput(txid, vout): the default script_sig is a new Script([]) per object *)
Definition new_txin_default (fields : list Z) : alloc h_in :=
  let* s := new_script [] in let* o := fresh in ret {| in_obj := o; in_script := s; in_fields := fields |}.

(* copy helpers *)
Definition copy_script (s : h_script) : alloc h_script := new_script (sc_content s).          (* copy.deepcopy of the list *)
Definition copy_in (i : h_in) : alloc h_in :=
  let* s := copy_script (in_script i) in let* o := fresh in ret {| in_obj := o; in_script := s; in_fields := in_fields i |}.
Definition copy_out (o : h_out) : alloc h_out :=
  let* s := copy_script (out_script o) in let* l := fresh in ret {| out_obj := l; out_script := s; out_amount := out_amount o |}.
Definition copy_wit (w : h_wit) : alloc h_wit :=
  let* o := fresh in let* l := fresh in ret {| wit_obj := o; wit_stack := l; wit_items := wit_items w |}.   (* list(stack) *)

Fixpoint map_alloc {A B} (f : A -> alloc B) (l : list A) : alloc (list B) :=
  match l with
  | [] => ret []
  | x :: r => let* y := f x in let* ys := map_alloc f r in ret (y :: ys)
  end.

Definition copy_tx (t : h_tx) : alloc h_tx :=
  let* ins := map_alloc copy_in (tx_ins t) in
  let* outs := map_alloc copy_out (tx_outs t) in
  let* wits := map_alloc copy_wit (tx_wits t) in
  let* il := fresh in let* ol := fresh in let* wl := fresh in let* o := fresh in
  ret {| tx_obj := o; tx_ins_list := il; tx_outs_list := ol; tx_wits_list := wl;
         tx_ins := ins; tx_outs := outs; tx_wits := wits; tx_fields := tx_fields t |}.

(* the mutable cells reachable from an object *)
Definition locs_script (s : h_script) : list loc := [sc_obj s; sc_list s].
Definition locs_in (i : h_in) : list loc := in_obj i :: locs_script (in_script i).
Definition locs_out (o : h_out) : list loc := out_obj o :: locs_script (out_script o).
Definition locs_wit (w : h_wit) : list loc := [wit_obj w; wit_stack w].
Definition locs_tx (t : h_tx) : list loc :=
  [tx_obj t; tx_ins_list t; tx_outs_list t; tx_wits_list t]
  ++ concat (map locs_in (tx_ins t)) ++ concat (map locs_out (tx_outs t)) ++ concat (map locs_wit (tx_wits t)).

(* values (what serialisation sees), ignoring locations *)
Definition val_script (s : h_script) := sc_content s.
Definition val_in (i : h_in) := (val_script (in_script i), in_fields i).
Definition val_out (o : h_out) := (val_script (out_script o), out_amount o).
Definition val_tx (t : h_tx) :=
  (map val_in (tx_ins t), map val_out (tx_outs t), map wit_items (tx_wits t), tx_fields t).

(* a mutation through public attributes writes one cell; an object is affected only if it reaches the cell *)
Definition affects (l : loc) (cells : list loc) : Prop := In l cells.
