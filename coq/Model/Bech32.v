(* Mirrors bitcoinutils/bech32.py (Pieter Wuille's reference code) and utils.is_address_bech32.
   Strings are lists of character codes. *)
From Coq Require Import ZArith List Bool.
From BU Require Import Lib.Bytes Gen.Tables.
Import ListNotations.
Open Scope Z_scope.

Inductive encoding := BECH32 | BECH32M.

Definition generator : list Z := [0x3B6A57B2; 0x26508E6D; 0x1EA119FA; 0x3D4233DD; 0x2A1462B3].

Definition polymod_step (chk value : Z) : Z :=
  let top := Z.shiftr chk 25 in
  let chk1 := Z.lxor (Z.shiftl (Z.land chk 0x1FFFFFF) 5) value in
  fold_left (fun c i => Z.lxor c (if Z.testbit top (Z.of_nat i) then nth i generator 0 else 0)) (seq 0 5) chk1.

Definition bech32_polymod (values : list Z) : Z := fold_left polymod_step values 1.

Definition hrp_expand (hrp : list Z) : list Z :=
  map (fun x => Z.shiftr x 5) hrp ++ [0] ++ map (fun x => Z.land x 31) hrp.

Definition verify_checksum (hrp data : list Z) : option encoding :=
  let c := bech32_polymod (hrp_expand hrp ++ data) in
  if c =? 1 then Some BECH32 else if c =? bech32m_const then Some BECH32M else None.

Definition spec_const (spec : encoding) : Z := match spec with BECH32M => bech32m_const | BECH32 => 1 end.

Definition create_checksum (hrp data : list Z) (spec : encoding) : list Z :=
  let values := hrp_expand hrp ++ data in
  let pm := Z.lxor (bech32_polymod (values ++ [0; 0; 0; 0; 0; 0])) (spec_const spec) in
  map (fun i => Z.land (Z.shiftr pm (5 * (5 - Z.of_nat i))) 31) (seq 0 6).

Definition charset_char (d : Z) : Z := nth (Z.to_nat d) bech32_charset 0.

Definition bech32_encode (hrp data : list Z) (spec : encoding) : list Z :=
  hrp ++ [49] ++ map charset_char (data ++ create_checksum hrp data spec).

Definition lower (c : Z) : Z := if (65 <=? c) && (c <=? 90) then c + 32 else c.
Definition upper (c : Z) : Z := if (97 <=? c) && (c <=? 122) then c - 32 else c.

Fixpoint find_char (c : Z) (l : list Z) : option Z :=     (* CHARSET.find(x) *)
  match l with
  | [] => None
  | x :: r => if x =? c then Some 0 else option_map Z.succ (find_char c r)
  end.

(* bech.rfind("1") *)
Fixpoint rfind (c : Z) (l : list Z) (i : Z) (best : option Z) : option Z :=
  match l with
  | [] => best
  | x :: r => rfind c r (i + 1) (if x =? c then Some i else best)
  end.

Fixpoint map_opt {A B} (f : A -> option B) (l : list A) : option (list B) :=
  match l with
  | [] => Some []
  | x :: r => match f x, map_opt f r with Some y, Some ys => Some (y :: ys) | _, _ => None end
  end.

Definition list_eqb (a b : list Z) : bool := bytes_eqb a b.

Definition bech32_decode (bech : list Z) : option (list Z * list Z * encoding) :=
  if existsb (fun x => (x <? 33) || (126 <? x)) bech then None
  else if negb (list_eqb (map lower bech) bech) && negb (list_eqb (map upper bech) bech) then None
  else
    let b := map lower bech in
    match rfind 49 b 0 None with
    | None => None                                  (* pos = -1 < 1 *)
    | Some pos =>
        if (pos <? 1) || (Z.of_nat (length b) <? pos + 7) || (90 <? Z.of_nat (length b)) then None
        else
          let hrp := firstn (Z.to_nat pos) b in
          match map_opt (fun x => find_char x bech32_charset) (skipn (Z.to_nat pos + 1) b) with
          | None => None
          | Some data =>
              match verify_checksum hrp data with
              | None => None
              | Some spec => Some (hrp, firstn (length data - 6) data, spec)
              end
          end
    end.

(* convertbits: the accumulator loop; None on an out-of-range value or bad padding *)
Fixpoint cb_emit (fuel : nat) (acc bits tobits maxv : Z) (out : list Z) : Z * list Z :=
  match fuel with
  | O => (bits, out)
  | S f => if tobits <=? bits then cb_emit f acc (bits - tobits) tobits maxv (out ++ [Z.land (Z.shiftr acc (bits - tobits)) maxv])
           else (bits, out)
  end.

Fixpoint cb_loop (data : list Z) (acc bits frombits tobits maxv max_acc : Z) (out : list Z) : option (Z * Z * list Z) :=
  match data with
  | [] => Some (acc, bits, out)
  | v :: r =>
      if (v <? 0) || negb (Z.shiftr v frombits =? 0) then None
      else
        let acc' := Z.land (Z.lor (Z.shiftl acc frombits) v) max_acc in
        let '(bits', out') := cb_emit 16 acc' (bits + frombits) tobits maxv out in
        cb_loop r acc' bits' frombits tobits maxv max_acc out'
  end.

Definition convertbits (data : list Z) (frombits tobits : Z) (pad : bool) : option (list Z) :=
  let maxv := Z.shiftl 1 tobits - 1 in
  let max_acc := Z.shiftl 1 (frombits + tobits - 1) - 1 in
  match cb_loop data 0 0 frombits tobits maxv max_acc [] with
  | None => None
  | Some (acc, bits, out) =>
      if pad then Some (if bits =? 0 then out else out ++ [Z.land (Z.shiftl acc (tobits - bits)) maxv])
      else if (frombits <=? bits) || negb (Z.land (Z.shiftl acc (tobits - bits)) maxv =? 0) then None
      else Some out
  end.

Definition encoding_eqb (a b : encoding) : bool :=
  match a, b with BECH32, BECH32 => true | BECH32M, BECH32M => true | _, _ => false end.

(* decode(hrp, addr) *)
Definition segwit_decode (hrp addr : list Z) : option (Z * list Z) :=
  match bech32_decode addr with
  | None => None
  | Some (hrpgot, data, spec) =>
      if negb (list_eqb hrpgot hrp) then None
      else match convertbits (tl data) 5 8 false with
           | None => None
           | Some decoded =>
               let n := Z.of_nat (length decoded) in
               if (n <? 2) || (40 <? n) then None
               else match data with
                    | [] => None                                  (* data[0]: IndexError; unreachable since n >= 2 *)
                    | v :: _ =>
                        if 16 <? v then None
                        else if (v =? 0) && negb (n =? 20) && negb (n =? 32) then None
                        else if ((v =? 0) && negb (encoding_eqb spec BECH32)) || (negb (v =? 0) && negb (encoding_eqb spec BECH32M))
                             then None
                             else Some (v, decoded)
                    end
           end
  end.

(* encode(hrp, witver, witprog) *)
Definition segwit_encode (hrp : list Z) (witver : Z) (witprog : list Z) : option (list Z) :=
  let spec := if witver =? 0 then BECH32 else BECH32M in
  match convertbits witprog 8 5 true with
  | None => None                                             (* [witver] + None: TypeError *)
  | Some d5 =>
      let ret := bech32_encode hrp (witver :: d5) spec in
      match segwit_decode hrp ret with None => None | Some _ => Some ret end
  end.

(* utils.is_address_bech32 after the repair of D9 *)
Definition is_address_bech32 (s : list Z) : bool :=
  match s with
  | [] => false
  | _ => match bech32_decode s with Some _ => true | None => false end
  end.
