(* Mirrors bitcoinutils/transactions.py: Sequence (368-413), Locktime (436-443). *)
From Coq Require Import ZArith List Bool.
From BU Require Import Lib.Bytes Gen.Tables.
Import ListNotations.
Open Scope Z_scope.

Record sequence := { seq_type : Z; seq_value : Z; seq_is_block : bool }.

(* Sequence.__init__: ValueError for a relative timelock outside 1..0xFFFF *)
Definition mk_sequence (ty v : Z) (blk : bool) : option sequence :=
  if (ty =? type_relative_timelock) && ((v <? 1) || (65535 <? v)) then None
  else Some {| seq_type := ty; seq_value := v; seq_is_block := blk |}.

(* int.to_bytes(4, "little") raises OverflowError outside 0 .. 2^32-1 *)
Definition to_bytes4 (n : Z) : option bytes :=
  if (0 <=? n) && (n <? 4294967296) then Some (le_bytes 4 n) else None.

Inductive seq_out := SeqBytes (b : bytes) | SeqNone | SeqErr.

Definition for_input_sequence (s : sequence) : seq_out :=
  if seq_type s =? type_absolute_timelock then SeqBytes absolute_timelock_sequence
  else if seq_type s =? type_replace_by_fee then SeqBytes replace_by_fee_sequence
  else if seq_type s =? type_relative_timelock then
    let seq := Z.lor (if seq_is_block s then 0 else Z.shiftl 1 22) (seq_value s) in
    match to_bytes4 seq with Some b => SeqBytes b | None => SeqErr end
  else SeqNone.

Definition for_script (s : sequence) : option Z :=
  if seq_type s =? type_replace_by_fee then None
  else Some (if (seq_type s =? type_relative_timelock) && negb (seq_is_block s)
             then Z.lor (seq_value s) (Z.shiftl 1 22) else seq_value s).

Definition locktime_for_transaction (v : Z) : option bytes := to_bytes4 v.
