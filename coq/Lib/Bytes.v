(* Bytes as lists of Z; little/big-endian fixed-width encodings.
   Conventions: DESIGN.md section 5.1. *)
From Coq Require Import ZArith List Bool Lia.
Import ListNotations.
Open Scope Z_scope.

Definition bytes := list Z.

Definition byte_ok (b : Z) : bool := (0 <=? b) && (b <? 256).
Definition wf_bytesb (l : bytes) : bool := forallb byte_ok l.
Definition wf_bytes (l : bytes) : Prop := Forall (fun b => 0 <= b < 256) l.

(* int.to_bytes(k, "little") for 0 <= n < 256^k ; struct.pack("<I"/"<H"/"<Q") *)
Fixpoint le_bytes (k : nat) (n : Z) : bytes :=
  match k with
  | O => []
  | S k' => (n mod 256) :: le_bytes k' (n / 256)
  end.

(* int.from_bytes(l, "little") *)
Fixpoint le_val (l : bytes) : Z :=
  match l with
  | [] => 0
  | b :: t => b + 256 * le_val t
  end.

Definition be_bytes (k : nat) (n : Z) : bytes := rev (le_bytes k n).
Definition be_val (l : bytes) : Z := le_val (rev l).

(* Python slicing l[a:b] with 0 <= a : truncates silently *)
Definition slice (l : bytes) (a len : nat) : bytes := firstn len (skipn a l).

(* number of bytes needed: (n.bit_length() + 7) // 8 ; bit_length n = log2 n + 1 for n > 0 *)
Definition nbytes (n : Z) : nat :=
  if n <=? 0 then O else Z.to_nat ((Z.log2 n + 8) / 8).

(* lexicographic comparison of byte strings, Python's bytes.__lt__ *)
Fixpoint bytes_ltb (a b : bytes) : bool :=
  match a, b with
  | [], [] => false
  | [], _ :: _ => true
  | _ :: _, [] => false
  | x :: a', y :: b' => if x <? y then true else if y <? x then false else bytes_ltb a' b'
  end.

Fixpoint bytes_eqb (a b : bytes) : bool :=
  match a, b with
  | [], [] => true
  | x :: a', y :: b' => (x =? y) && bytes_eqb a' b'
  | _, _ => false
  end.

Definition repeat_byte (b : Z) (k : nat) : bytes := repeat b k.
