(* Meaning of the Python constructs that the source translator (harness/gen_src.py) emits.
   Gen/Src.v, regenerated from /repo on every run, is written in exactly these terms; Proofs/SrcTie.v
   proves the translated functions equal to the hand-written model. *)
From Coq Require Import ZArith List Bool.
From BU Require Import Lib.Bytes.
Import ListNotations.
Open Scope Z_scope.

(* result of running a function body: a returned value, falling off the end / `return None`, an exception *)
Inductive res (A : Type) : Type := Ok (a : A) | RetNone | Raise.
Arguments Ok {A} a.
Arguments RetNone {A}.
Arguments Raise {A}.

Definition of_option {A} (o : option A) : res A := match o with Some a => Ok a | None => Raise end.

(* for x in l: <body>   where the body only updates the loop-carried variables [st] or raises *)
Fixpoint py_for {A S : Type} (l : list A) (st : S) (body : A -> S -> res S) : res S :=
  match l with
  | [] => Ok st
  | x :: r => match body x st with Ok st' => py_for r st' body | _ => Raise end
  end.

(* l[i] on a list : IndexError outside -len .. len-1 *)
Definition py_nth {A : Type} (l : list A) (i : Z) : option A :=
  let n := Z.of_nat (length l) in
  if (0 <=? i) && (i <? n) then nth_error l (Z.to_nat i)
  else if (- n <=? i) && (i <? 0) then nth_error l (Z.to_nat (n + i))
  else None.

(* l[i].attr = v, as a functional update of element i : IndexError outside -len .. len-1 *)
Fixpoint update_nth {A : Type} (l : list A) (i : nat) (f : A -> A) : list A :=
  match l, i with
  | [], _ => []
  | x :: r, O => f x :: r
  | x :: r, S i' => x :: update_nth r i' f
  end.
Definition py_update_nth {A : Type} (l : list A) (i : Z) (f : A -> A) : option (list A) :=
  let n := Z.of_nat (length l) in
  if (0 <=? i) && (i <? n) then Some (update_nth l (Z.to_nat i) f)
  else if (- n <=? i) && (i <? 0) then Some (update_nth l (Z.to_nat (n + i)) f)
  else None.

(* for i in range(len(l)): if i != k: l[i].attr = v *)
Fixpoint mapi_from {A B : Type} (k : nat) (f : nat -> A -> B) (l : list A) : list B :=
  match l with
  | [] => []
  | x :: r => f k x :: mapi_from (S k) f r
  end.
Definition py_update_others {A : Type} (l : list A) (k : Z) (f : A -> A) : list A :=
  mapi_from 0 (fun j x => if Z.of_nat j =? k then x else f x) l.

(* bytes([x]) : ValueError outside range(256) *)
Definition py_bytes1 (x : Z) : option bytes := if (0 <=? x) && (x <? 256) then Some [x] else None.

(* x.to_bytes(n, "little") : OverflowError for negative x or x >= 256^n, ValueError for negative n *)
Definition py_to_bytes_le (x n : Z) : option bytes :=
  if (0 <=? n) && (0 <=? x) && (x <? 2 ^ (8 * n)) then Some (le_bytes (Z.to_nat n) x) else None.

(* struct.pack("<B" | "<H" | "<I" | "<Q", x) : struct.error outside the unsigned range *)
Definition py_pack_le (size : nat) (x : Z) : option bytes :=
  if (0 <=? x) && (x <? 2 ^ (8 * Z.of_nat size)) then Some (le_bytes size x) else None.

(* struct.pack("<i" | "<q", x) : two's complement, struct.error outside the signed range *)
Definition py_pack_le_signed (size : nat) (x : Z) : option bytes :=
  let half := 2 ^ (8 * Z.of_nat size - 1) in
  if (- half <=? x) && (x <? half) then Some (le_bytes size (x mod (2 * half))) else None.

(* struct.unpack("<H" | ..., b)[0] : struct.error unless len(b) is exactly the size *)
Definition py_unpack_le (size : nat) (b : bytes) : option Z :=
  if Nat.eqb (length b) size then Some (le_val b) else None.

(* b[i] : IndexError outside -len .. len-1 *)
Definition py_index (b : bytes) (i : Z) : option Z :=
  let n := Z.of_nat (length b) in
  if (0 <=? i) && (i <? n) then Some (nth (Z.to_nat i) b 0)
  else if (- n <=? i) && (i <? 0) then Some (nth (Z.to_nat (n + i)) b 0)
  else None.

(* b[lo:hi] with Python's clamping of both bounds *)
Definition py_norm (len i : Z) : Z := if i <? 0 then Z.max 0 (len + i) else Z.min i len.
Definition py_slice (b : bytes) (lo hi : Z) : bytes :=
  let n := Z.of_nat (length b) in
  let l := py_norm n lo in let h := py_norm n hi in
  firstn (Z.to_nat (h - l)) (skipn (Z.to_nat l) b).
Definition py_slice_from (b : bytes) (lo : Z) : bytes := py_slice b lo (Z.of_nat (length b)).
Definition py_slice_to (b : bytes) (hi : Z) : bytes := py_slice b 0 hi.

(* x.bit_length() *)
Definition py_bit_length (x : Z) : Z := if x =? 0 then 0 else Z.log2 (Z.abs x) + 1.

(* a << b, a >> b : ValueError for a negative count *)
Definition py_lshift (a b : Z) : option Z := if b <? 0 then None else Some (Z.shiftl a b).
Definition py_rshift (a b : Z) : option Z := if b <? 0 then None else Some (Z.shiftr a b).

(* a // b, a % b : ZeroDivisionError; Coq's Z.div / Z.modulo round like Python's (floor, sign of the divisor) *)
Definition py_floordiv (a b : Z) : option Z := if b =? 0 then None else Some (a / b).
Definition py_mod (a b : Z) : option Z := if b =? 0 then None else Some (a mod b).

(* int.from_bytes(b, "little" | "big") *)
Definition py_from_bytes_le (b : bytes) : Z := le_val b.
Definition py_from_bytes_be (b : bytes) : Z := be_val b.

(* truthiness of an int / of bytes *)
Definition py_truthy_int (x : Z) : bool := negb (x =? 0).
Definition py_truthy_bytes (b : bytes) : bool := negb (Nat.eqb (length b) 0).

(* comparison of byte strings with == *)
Definition py_bytes_eq (a b : bytes) : bool := bytes_eqb a b.
