From Coq Require Import ZArith List Bool Lia.
From BU Require Import Lib.Bytes.
Import ListNotations.
Open Scope Z_scope.
Ltac Zify.zify_post_hook ::= Z.to_euclidean_division_equations.

Lemma wf_bytesb_iff l : wf_bytesb l = true <-> wf_bytes l.
Proof.
  unfold wf_bytesb, wf_bytes, byte_ok. rewrite forallb_forall, Forall_forall.
  split; intros H x Hx; specialize (H x Hx); lia.
Qed.

Lemma wf_bytes_app a b : wf_bytes (a ++ b) <-> wf_bytes a /\ wf_bytes b.
Proof. unfold wf_bytes. apply Forall_app. Qed.

Lemma wf_bytes_rev a : wf_bytes a -> wf_bytes (rev a).
Proof. unfold wf_bytes. apply Forall_rev. Qed.

Lemma wf_bytes_firstn n a : wf_bytes a -> wf_bytes (firstn n a).
Proof.
  unfold wf_bytes. rewrite !Forall_forall. intros H x Hx. apply H.
  rewrite <- (firstn_skipn n a). apply in_or_app. now left.
Qed.

Lemma wf_bytes_skipn n a : wf_bytes a -> wf_bytes (skipn n a).
Proof.
  unfold wf_bytes. rewrite !Forall_forall. intros H x Hx. apply H.
  rewrite <- (firstn_skipn n a). apply in_or_app. now right.
Qed.

Lemma le_bytes_length k n : length (le_bytes k n) = k.
Proof. revert n; induction k as [|k IH]; intros n; cbn [le_bytes length]; [reflexivity|now rewrite IH]. Qed.

Lemma le_bytes_wf k n : wf_bytes (le_bytes k n).
Proof.
  revert n; induction k as [|k IH]; intros n; cbn [le_bytes]; constructor.
  - apply Z.mod_pos_bound; lia.
  - apply IH.
Qed.

Lemma le_val_nonneg l : wf_bytes l -> 0 <= le_val l.
Proof. induction 1 as [|b t Hb _ IH]; cbn [le_val]; lia. Qed.

Lemma le_val_bound l : wf_bytes l -> 0 <= le_val l < 256 ^ Z.of_nat (length l).
Proof.
  induction 1 as [|b t Hb _ IH]; cbn [le_val length].
  - cbn. lia.
  - rewrite Nat2Z.inj_succ, Z.pow_succ_r by lia. lia.
Qed.

Lemma le_val_le_bytes k n : le_val (le_bytes k n) = n mod 256 ^ Z.of_nat k.
Proof.
  revert n; induction k as [|k IH]; intros n; cbn [le_bytes le_val].
  - cbn. now rewrite Z.mod_1_r.
  - rewrite IH, Nat2Z.inj_succ, Z.pow_succ_r by lia.
    rewrite Z.rem_mul_r by lia. lia.
Qed.

Lemma le_val_le_bytes_small k n : 0 <= n < 256 ^ Z.of_nat k -> le_val (le_bytes k n) = n.
Proof. intros H. rewrite le_val_le_bytes. apply Z.mod_small; lia. Qed.

Lemma le_bytes_le_val l : wf_bytes l -> le_bytes (length l) (le_val l) = l.
Proof.
  induction 1 as [|b t Hb Ht IH]; cbn [le_val length le_bytes]; [reflexivity|].
  assert (E1 : (b + 256 * le_val t) mod 256 = b) by lia.
  assert (E2 : (b + 256 * le_val t) / 256 = le_val t) by lia.
  rewrite E1, E2, IH. reflexivity.
Qed.

Lemma le_val_app a b : le_val (a ++ b) = le_val a + 256 ^ Z.of_nat (length a) * le_val b.
Proof.
  induction a as [|x a IH]; cbn [app le_val length].
  - change (Z.of_nat 0) with 0. rewrite Z.pow_0_r. lia.
  - rewrite IH, Nat2Z.inj_succ, Z.pow_succ_r by lia. ring.
Qed.

Lemma le_bytes_inj k n m :
  0 <= n < 256 ^ Z.of_nat k -> 0 <= m < 256 ^ Z.of_nat k -> le_bytes k n = le_bytes k m -> n = m.
Proof.
  intros Hn Hm E. rewrite <- (le_val_le_bytes_small k n Hn), <- (le_val_le_bytes_small k m Hm).
  now rewrite E.
Qed.

Lemma be_bytes_length k n : length (be_bytes k n) = k.
Proof. unfold be_bytes. now rewrite rev_length, le_bytes_length. Qed.

Lemma be_val_be_bytes_small k n : 0 <= n < 256 ^ Z.of_nat k -> be_val (be_bytes k n) = n.
Proof. intros H. unfold be_val, be_bytes. rewrite rev_involutive. now apply le_val_le_bytes_small. Qed.

Lemma be_bytes_be_val l : wf_bytes l -> be_bytes (length l) (be_val l) = l.
Proof.
  intros H. unfold be_bytes, be_val. rewrite <- (rev_length l).
  rewrite le_bytes_le_val by now apply wf_bytes_rev. apply rev_involutive.
Qed.

Lemma be_bytes_wf k n : wf_bytes (be_bytes k n).
Proof. apply wf_bytes_rev, le_bytes_wf. Qed.

Lemma firstn_app_exact {A} (a b : list A) : firstn (length a) (a ++ b) = a.
Proof. rewrite firstn_app, Nat.sub_diag, firstn_all. cbn. apply app_nil_r. Qed.

Lemma skipn_app_exact {A} (a b : list A) : skipn (length a) (a ++ b) = b.
Proof. rewrite skipn_app, Nat.sub_diag, skipn_all. reflexivity. Qed.

Lemma bytes_eqb_eq a b : bytes_eqb a b = true <-> a = b.
Proof.
  revert b; induction a as [|x a IH]; intros [|y b]; cbn [bytes_eqb]; try (split; congruence).
  rewrite andb_true_iff, IH, Z.eqb_eq. split; [intros [-> ->]; reflexivity|intros E; inversion E; auto].
Qed.

Lemma bytes_eqb_refl a : bytes_eqb a a = true.
Proof. now apply bytes_eqb_eq. Qed.

Lemma firstn_app_len {A} k (a b : list A) : length a = k -> firstn k (a ++ b) = a.
Proof. intros <-. apply firstn_app_exact. Qed.

Lemma skipn_app_len {A} k (a b : list A) : length a = k -> skipn k (a ++ b) = b.
Proof. intros <-. apply skipn_app_exact. Qed.

Lemma firstn_le_bytes_app k n rest : firstn k (le_bytes k n ++ rest) = le_bytes k n.
Proof. apply firstn_app_len, le_bytes_length. Qed.

Lemma skipn_le_bytes_app k n rest : skipn k (le_bytes k n ++ rest) = rest.
Proof. apply skipn_app_len, le_bytes_length. Qed.
