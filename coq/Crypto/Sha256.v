(* Executable SHA-256 (FIPS 180-4) over byte lists.  Used only to instantiate the abstract hash of
   the theorems when the model is extracted for the correspondence run; validated against hashlib
   on every check (oracle sanity).  No theorem depends on it. *)
From Coq Require Import ZArith List.
From BU Require Import Lib.Bytes.
Import ListNotations.
Open Scope Z_scope.

Definition w32 (x : Z) : Z := Z.land x 4294967295.
Definition rotr (x n : Z) : Z := Z.lor (Z.shiftr x n) (w32 (Z.shiftl x (32 - n))).
Definition ch (x y z : Z) := Z.lxor (Z.land x y) (Z.land (Z.lxor x 4294967295) z).
Definition maj (x y z : Z) := Z.lxor (Z.lxor (Z.land x y) (Z.land x z)) (Z.land y z).
Definition bsig0 x := Z.lxor (Z.lxor (rotr x 2) (rotr x 13)) (rotr x 22).
Definition bsig1 x := Z.lxor (Z.lxor (rotr x 6) (rotr x 11)) (rotr x 25).
Definition ssig0 x := Z.lxor (Z.lxor (rotr x 7) (rotr x 18)) (Z.shiftr x 3).
Definition ssig1 x := Z.lxor (Z.lxor (rotr x 17) (rotr x 19)) (Z.shiftr x 10).

Definition sha_k : list Z :=
 [0x428a2f98; 0x71374491; 0xb5c0fbcf; 0xe9b5dba5; 0x3956c25b; 0x59f111f1; 0x923f82a4; 0xab1c5ed5;
  0xd807aa98; 0x12835b01; 0x243185be; 0x550c7dc3; 0x72be5d74; 0x80deb1fe; 0x9bdc06a7; 0xc19bf174;
  0xe49b69c1; 0xefbe4786; 0x0fc19dc6; 0x240ca1cc; 0x2de92c6f; 0x4a7484aa; 0x5cb0a9dc; 0x76f988da;
  0x983e5152; 0xa831c66d; 0xb00327c8; 0xbf597fc7; 0xc6e00bf3; 0xd5a79147; 0x06ca6351; 0x14292967;
  0x27b70a85; 0x2e1b2138; 0x4d2c6dfc; 0x53380d13; 0x650a7354; 0x766a0abb; 0x81c2c92e; 0x92722c85;
  0xa2bfe8a1; 0xa81a664b; 0xc24b8b70; 0xc76c51a3; 0xd192e819; 0xd6990624; 0xf40e3585; 0x106aa070;
  0x19a4c116; 0x1e376c08; 0x2748774c; 0x34b0bcb5; 0x391c0cb3; 0x4ed8aa4a; 0x5b9cca4f; 0x682e6ff3;
  0x748f82ee; 0x78a5636f; 0x84c87814; 0x8cc70208; 0x90befffa; 0xa4506ceb; 0xbef9a3f7; 0xc67178f2].

Definition sha_h0 : list Z :=
 [0x6a09e667; 0xbb67ae85; 0x3c6ef372; 0xa54ff53a; 0x510e527f; 0x9b05688c; 0x1f83d9ab; 0x5be0cd19].

Fixpoint words_be (k : nat) (b : bytes) : list Z :=
  match k with
  | O => []
  | S k' => be_val (firstn 4 b) :: words_be k' (skipn 4 b)
  end.

(* message schedule kept as a list, newest first *)
Fixpoint schedule (k : nat) (w : list Z) : list Z :=
  match k with
  | O => w
  | S k' =>
      let w2 := nth 1 w 0 in let w7 := nth 6 w 0 in let w15 := nth 14 w 0 in let w16 := nth 15 w 0 in
      schedule k' (w32 (ssig1 w2 + w7 + ssig0 w15 + w16) :: w)
  end.

Definition round (st : list Z) (kw : Z * Z) : list Z :=
  match st with
  | [a; b; c; d; e; f; g; h] =>
      let t1 := h + bsig1 e + ch e f g + fst kw + snd kw in
      let t2 := bsig0 a + maj a b c in
      [w32 (t1 + t2); a; b; c; w32 (d + t1); e; f; g]
  | _ => st
  end.

Definition compress (h : list Z) (block : bytes) : list Z :=
  let w := rev (schedule 48 (rev (words_be 16 block))) in
  let st := fold_left round (combine sha_k w) h in
  map (fun p => w32 (fst p + snd p)) (combine h st).

Definition sha_pad (msg : bytes) : bytes :=
  let l := Z.of_nat (length msg) in
  let k := Z.to_nat ((55 - l) mod 64) in
  msg ++ [128] ++ repeat 0 k ++ be_bytes 8 (8 * l).

Fixpoint blocks (k : nat) (b : bytes) (h : list Z) : list Z :=
  match k with
  | O => h
  | S k' => blocks k' (skipn 64 b) (compress h (firstn 64 b))
  end.

Definition sha256 (msg : bytes) : bytes :=
  let p := sha_pad msg in
  let h := blocks (Nat.div (length p) 64) p sha_h0 in
  concat (map (be_bytes 4) h).

Definition sha256d (msg : bytes) : bytes := sha256 (sha256 msg).
