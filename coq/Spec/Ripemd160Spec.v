(* RIPEMD-160 as specified by Dobbertin, Bosselaers and Preneel (1996): 32-bit words, additions
   modulo 2^32, over the padded message.  Tables and constants written from the paper. *)
From Coq Require Import ZArith List Bool.
From BU Require Import Lib.Bytes.
Import ListNotations.
Open Scope Z_scope.

Definition M32 : Z := 4294967296.
Definition add32 (a b : Z) : Z := (a + b) mod M32.
Definition not32 (a : Z) : Z := M32 - 1 - a.
Definition rol32 (x s : Z) : Z := ((x * 2 ^ s) mod M32) + (x / 2 ^ (32 - s)).   (* x in [0, 2^32) *)

Definition f_spec (j : Z) (x y z : Z) : Z :=
  if j <? 16 then Z.lxor (Z.lxor x y) z
  else if j <? 32 then Z.lor (Z.land x y) (Z.land (not32 x) z)
  else if j <? 48 then Z.lxor (Z.lor x (not32 y)) z
  else if j <? 64 then Z.lor (Z.land x z) (Z.land y (not32 z))
  else Z.lxor x (Z.lor y (not32 z)).

Definition K_left (j : Z) : Z :=
  if j <? 16 then 0 else if j <? 32 then 0x5A827999 else if j <? 48 then 0x6ED9EBA1
  else if j <? 64 then 0x8F1BBCDC else 0xA953FD4E.
Definition K_right (j : Z) : Z :=
  if j <? 16 then 0x50A28BE6 else if j <? 32 then 0x5C4DD124 else if j <? 48 then 0x6D703EF3
  else if j <? 64 then 0x7A6D76E9 else 0.

Definition r_left : list Z :=
  [0;1;2;3;4;5;6;7;8;9;10;11;12;13;14;15; 7;4;13;1;10;6;15;3;12;0;9;5;2;14;11;8;
   3;10;14;4;9;15;8;1;2;7;0;6;13;11;5;12; 1;9;11;10;0;8;12;4;13;3;7;15;14;5;6;2;
   4;0;5;9;7;12;2;10;14;1;3;8;11;6;15;13].
Definition r_right : list Z :=
  [5;14;7;0;9;2;11;4;13;6;15;8;1;10;3;12; 6;11;3;7;0;13;5;10;14;15;8;12;4;9;1;2;
   15;5;1;3;7;14;6;9;11;8;12;2;10;0;4;13; 8;6;4;1;3;11;15;0;5;12;2;13;9;7;10;14;
   12;15;10;4;1;5;8;7;6;2;13;14;0;3;9;11].
Definition s_left : list Z :=
  [11;14;15;12;5;8;7;9;11;13;14;15;6;7;9;8; 7;6;8;13;11;9;7;15;7;12;15;9;11;7;13;12;
   11;13;6;7;14;9;13;15;14;8;13;6;5;12;7;5; 11;12;14;15;14;15;9;8;9;14;5;6;8;6;5;12;
   9;15;5;11;6;8;13;12;5;12;13;14;11;8;5;6].
Definition s_right : list Z :=
  [8;9;9;11;13;15;15;5;7;7;8;11;14;14;12;6; 9;13;15;7;12;8;9;11;7;7;12;7;6;15;13;11;
   9;7;15;11;8;6;6;14;12;13;5;14;13;13;7;5; 15;5;8;11;14;14;6;14;6;9;12;9;12;5;15;8;
   8;5;12;9;12;5;14;6;8;13;6;5;15;13;11;11].

Definition nz (l : list Z) (i : Z) : Z := nth (Z.to_nat i) l 0.

Record w5 := { wa : Z; wb : Z; wc : Z; wd : Z; we : Z }.

(* T = rol_s(A + f(j,B,C,D) + X[r(j)] + K(j)) + E ; A = E; E = D; D = rol_10(C); C = B; B = T *)
Definition line_step (X : list Z) (r s : list Z) (K : Z) (fj : Z) (j : Z) (v : w5) : w5 :=
  let T := add32 (rol32 (add32 (add32 (add32 (wa v) (f_spec fj (wb v) (wc v) (wd v))) (nz X (nz r j))) K) (nz s j)) (we v) in
  {| wa := we v; wb := T; wc := wb v; wd := rol32 (wc v) 10; we := wd v |}.

Fixpoint lines (n : nat) (j : Z) (X : list Z) (l r : w5) : w5 * w5 :=
  match n with
  | O => (l, r)
  | S n' =>
      lines n' (j + 1) X (line_step X r_left s_left (K_left j) j j l)
                          (line_step X r_right s_right (K_right j) (79 - j) j r)
  end.

Definition block_words (block : bytes) : list Z :=
  map (fun i => le_val (firstn 4 (skipn (4 * i) block))) (seq 0 16).

Definition compress_spec (h : w5) (block : bytes) : w5 :=
  let X := block_words block in
  let '(l, r) := lines 80 0 X h h in
  {| wa := add32 (add32 (wb h) (wc l)) (wd r); wb := add32 (add32 (wc h) (wd l)) (we r);
     wc := add32 (add32 (wd h) (we l)) (wa r); wd := add32 (add32 (we h) (wa l)) (wb r);
     we := add32 (add32 (wa h) (wb l)) (wc r) |}.

Definition iv : w5 := {| wa := 0x67452301; wb := 0xEFCDAB89; wc := 0x98BADCFE; wd := 0x10325476; we := 0xC3D2E1F0 |}.

(* padding: 0x80, zeros up to 56 mod 64, then the bit length as 64-bit little-endian *)
Definition pad_spec (msg : bytes) : bytes :=
  let l := Z.of_nat (length msg) in
  msg ++ [128] ++ repeat 0 (Z.to_nat ((55 - l) mod 64)) ++ le_bytes 8 (8 * l).

Fixpoint fold_blocks (k : nat) (b : bytes) (h : w5) : w5 :=
  match k with
  | O => h
  | S k' => fold_blocks k' (skipn 64 b) (compress_spec h (firstn 64 b))
  end.

Definition ripemd160_spec (msg : bytes) : bytes :=
  let p := pad_spec msg in
  let h := fold_blocks (Nat.div (length p) 64) p iv in
  concat (map (le_bytes 4) [wa h; wb h; wc h; wd h; we h]).
