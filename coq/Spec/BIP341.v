(* BIP341: taproot output construction and script-path validation, from the BIP text
   (taproot_tweak_pubkey, taproot_tree_helper, and the validation rules of "Script validation rules"). *)
From Coq Require Import ZArith List Bool.
From BU Require Import Lib.Bytes Model.EC Spec.CompactSize Spec.Consensus.
Import ListNotations.
Open Scope Z_scope.

Section BIP341.
  Variable sha256 : bytes -> bytes.
  Variables (p n : Z) (add : point -> point -> point) (lift : Z -> point) (G : point).
  Variable tag_leaf tag_branch tag_tweak : bytes.    (* UTF-8 of "TapLeaf", "TapBranch", "TapTweak" *)
  Let mul (P : point) (k : Z) : point := point_mul_with add P k.

  Definition htag (tag m : bytes) : bytes := sha256 (sha256 tag ++ sha256 tag ++ m).

  (* leaf hash: leaf version, CompactSize-prefixed script *)
  Definition leaf_hash (version : Z) (script : bytes) : bytes := htag tag_leaf ([version] ++ ser_bytes script).
  (* branch hash: the two children in lexicographic order *)
  Definition branch_hash (a b : bytes) : bytes :=
    if bytes_ltb b a then htag tag_branch (b ++ a) else htag tag_branch (a ++ b).

  (* script trees as in the BIP: a leaf (version 0xc0, script) or a pair of subtrees *)
  Inductive stree := SLeaf (script : bytes) | SNode (a b : stree).
  Fixpoint tree_root (t : stree) : bytes :=
    match t with
    | SLeaf s => leaf_hash 192 s
    | SNode a b => branch_hash (tree_root a) (tree_root b)
    end.

  (* Q = lift_x(P) + int(hash_TapTweak(bytes(P) || h)) G, with the parity of Q *)
  Definition output_key (px : Z) (h : bytes) : option (Z * bool) :=
    let t := be_val (htag tag_tweak (be_bytes 32 px ++ h)) in
    if n <=? t then None
    else match lift px with
         | None => None
         | Some P => match add (Some P) (mul G t) with
                     | None => None
                     | Some (qx, qy) => Some (qx, Z.odd qy)
                     end
         end.

  Fixpoint chunks32 (fuel : nat) (b : bytes) : list bytes :=
    match fuel with
    | O => []
    | S f => match b with [] => [] | _ => firstn 32 b :: chunks32 f (skipn 32 b) end
    end.

  (* script-path validation: control block c = c[0] || p(32) || e_1 .. e_m (32 bytes each), m <= 128;
     k_0 = leaf hash of the script with version c[0] & 0xfe; k_{j+1} = branch(k_j, e_j);
     the output key q must equal lift_x(p) + t G with t from (p, k_m), and c[0] & 1 must be the parity of Q *)
  Definition verify_script_path (control script witness_program : bytes) : bool :=
    match control with
    | [] => false
    | c0 :: rest =>
        let pk := firstn 32 rest in
        let path := skipn 32 rest in
        if negb (Nat.eqb (length pk) 32) || negb (Nat.eqb (Nat.modulo (length path) 32) 0) || (128 * 32 <? length path)%nat then false
        else
          let k0 := leaf_hash (Z.land c0 254) script in
          let k := fold_left branch_hash (chunks32 (length path) path) k0 in
          match output_key (be_val pk) k with
          | None => false
          | Some (qx, odd) => bytes_eqb (be_bytes 32 qx) witness_program && Bool.eqb (Z.odd c0) odd
          end
    end.
End BIP341.
