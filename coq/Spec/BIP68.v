(* BIP68 (relative lock-time in nSequence), BIP112 (CHECKSEQUENCEVERIFY), BIP125/BIP65 finality,
   written from the BIP texts. *)
From Coq Require Import ZArith List Bool.
Open Scope Z_scope.

Definition seq_disable_flag : Z := 2147483648.   (* 1 << 31 *)
Definition seq_type_flag : Z := 4194304.         (* 1 << 22 *)
Definition seq_mask : Z := 65535.
Definition seq_final : Z := 4294967295.

(* BIP68: the encoded relative lock of an nSequence value, if enabled *)
Definition bip68_units (nseq : Z) : option (bool * Z) :=   (* (is_512s_units, value) *)
  if Z.eqb (Z.land nseq seq_disable_flag) 0
  then Some (negb (Z.eqb (Z.land nseq seq_type_flag) 0), Z.land nseq seq_mask)
  else None.

(* BIP112: does OP_CHECKSEQUENCEVERIFY with stack operand [arg] succeed for an input whose
   nSequence is [txseq] in a transaction of version [ver]?  (CheckSequence in interpreter.cpp) *)
Definition bip112_ok (arg ver txseq : Z) : bool :=
  if arg <? 0 then false
  else if negb (Z.eqb (Z.land arg seq_disable_flag) 0) then true
  else if ver <? 2 then false
  else if negb (Z.eqb (Z.land txseq seq_disable_flag) 0) then false
  else
    let mask := Z.lor seq_type_flag seq_mask in
    let a := Z.land arg mask in let t := Z.land txseq mask in
    if negb (((t <? seq_type_flag) && (a <? seq_type_flag)) || ((seq_type_flag <=? t) && (seq_type_flag <=? a)))
    then false
    else a <=? t.

(* absolute lock-time is enforced only if some input is non-final; BIP125 signals replaceability
   with nSequence < 0xfffffffe *)
Definition enforces_locktime (nseq : Z) : bool := negb (nseq =? seq_final).
Definition signals_rbf (nseq : Z) : bool := nseq <? 4294967294.
