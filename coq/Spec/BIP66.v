(* Strict DER signatures (BIP66), low S (BIP62 rule 5 / BIP146) and low R, from the documents.
   is_valid_signature_encoding transliterates Bitcoin Core's IsValidSignatureEncoding. *)
From Coq Require Import ZArith List Bool.
From BU Require Import Lib.Bytes.
Import ListNotations.
Open Scope Z_scope.

Definition secp_n : Z := 115792089237316195423570985008687907852837564279074904382605163141518161494337.

(* DER INTEGER contents of a positive number: minimal big-endian, 0x00 prefixed when the top bit is set *)
Definition der_int (x : Z) : bytes :=
  let b := be_bytes (nbytes x) x in
  match b with
  | top :: _ => if 128 <=? top then 0 :: b else b
  | [] => [0]
  end.

Definition strict_der (r s : Z) : bytes :=
  let rb := der_int r in let sb := der_int s in
  [48; Z.of_nat (length rb + length sb + 4); 2; Z.of_nat (length rb)] ++ rb ++ [2; Z.of_nat (length sb)] ++ sb.

Definition nthz (l : bytes) (i : nat) : Z := nth i l 0.

(* bool static IsValidSignatureEncoding(const std::vector<unsigned char> &sig) -- sig includes the hash type byte *)
Definition is_valid_signature_encoding (sig : bytes) : bool :=
  let n := length sig in
  if (n <? 9)%nat then false else
  if (73 <? n)%nat then false else
  if negb (nthz sig 0 =? 48) then false else
  if negb (nthz sig 1 =? Z.of_nat n - 3) then false else
  let lenR := Z.to_nat (nthz sig 3) in
  if (n <=? 5 + lenR)%nat then false else
  let lenS := Z.to_nat (nthz sig (5 + lenR)) in
  if negb (Nat.eqb (lenR + lenS + 7) n) then false else
  if negb (nthz sig 2 =? 2) then false else
  if Nat.eqb lenR 0 then false else
  if negb (Z.eqb (Z.land (nthz sig 4) 128) 0) then false else
  if (1 <? lenR)%nat && (nthz sig 4 =? 0) && Z.eqb (Z.land (nthz sig 5) 128) 0 then false else
  if negb (nthz sig (lenR + 4) =? 2) then false else
  if Nat.eqb lenS 0 then false else
  if negb (Z.eqb (Z.land (nthz sig (lenR + 6)) 128) 0) then false else
  if (1 <? lenS)%nat && (nthz sig (lenR + 6) =? 0) && Z.eqb (Z.land (nthz sig (lenR + 7)) 128) 0 then false else
  true.

Definition low_s (s : Z) : bool := s <=? secp_n / 2.
Definition low_r (r : Z) : bool := r <? 2 ^ 255.
Definition normal_s (s : Z) : Z := if s <=? secp_n / 2 then s else secp_n - s.
