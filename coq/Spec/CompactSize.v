(* CompactSize as defined by the Bitcoin protocol documentation / Bitcoin Core serialize.h
   (WriteCompactSize / ReadCompactSize). Written from the documents, not from the library. *)
From Coq Require Import ZArith List Bool.
From BU Require Import Lib.Bytes.
Import ListNotations.
Open Scope Z_scope.

Definition spec_compact (n : Z) : bytes :=
  if n <=? 252 then [n]
  else if n <=? 65535 then 253 :: le_bytes 2 n
  else if n <=? 4294967295 then 254 :: le_bytes 4 n
  else 255 :: le_bytes 8 n.

(* A CompactSize decoder that also accepts non-canonical encodings (as the original
   protocol did): value and number of bytes consumed. *)
Definition spec_decode_any (b : bytes) : option (Z * nat) :=
  match b with
  | [] => None
  | x :: t =>
      if x <=? 252 then Some (x, 1%nat)
      else if x =? 253 then (if (2 <=? length t)%nat then Some (le_val (firstn 2 t), 3%nat) else None)
      else if x =? 254 then (if (4 <=? length t)%nat then Some (le_val (firstn 4 t), 5%nat) else None)
      else (if (8 <=? length t)%nat then Some (le_val (firstn 8 t), 9%nat) else None)
  end.
