(* Signature-hash preimages written from the documents:
   - legacy: Bitcoin Core script/interpreter.cpp, CTransactionSignatureSerializer / SignatureHash
   - BIP143 (segwit v0)
   - BIP341 SigMsg with the BIP342 extension (taproot)
   over the abstract transaction of Spec/Consensus.v. Hashes are parameters. *)
From Coq Require Import ZArith List Bool.
From BU Require Import Lib.Bytes Spec.CompactSize Spec.Consensus.
Import ListNotations.
Open Scope Z_scope.

Definition SIGHASH_NONE := 2.
Definition SIGHASH_SINGLE := 3.
Definition SIGHASH_ANYONECANPAY := 128.

Fixpoint imap_from {A B} (k : nat) (f : nat -> A -> B) (l : list A) : list B :=
  match l with [] => [] | x :: r => f k x :: imap_from (S k) f r end.
Definition imap {A B} (f : nat -> A -> B) (l : list A) : list B := imap_from 0 f l.

Definition outpoint (x : s_in) : bytes := rev (s_txid x) ++ le_bytes 4 (s_vout x).

(* ---------------------------------------------------------------------------------- legacy *)
(* SerializeInput(nInput): with ANYONECANPAY only the signed input is serialised; other inputs
   get an empty script and, for SINGLE/NONE, sequence 0.  SerializeOutput: for SINGLE every
   output before the signed index is CTxOut() = (-1, empty). *)
Definition legacy_input (i : nat) (sc : bytes) (base : Z) (k : nat) (x : s_in) : bytes :=
  outpoint x
  ++ ser_bytes (if Nat.eqb k i then sc else [])
  ++ le_bytes 4 (if Nat.eqb k i then s_seq x
                 else if (base =? SIGHASH_SINGLE) || (base =? SIGHASH_NONE) then 0 else s_seq x).

Definition blank_output : bytes := le_bytes 8 (2 ^ 64 - 1) ++ ser_bytes [].

Definition spec_legacy_preimage (t : s_tx) (i : nat) (sc : bytes) (ht : Z) : option bytes :=
  let base := Z.land ht 31 in
  let acp := negb (Z.eqb (Z.land ht SIGHASH_ANYONECANPAY) 0) in
  match nth_error (s_ins t) i with
  | None => None
  | Some xi =>
      let ins := if acp then [legacy_input i sc base i xi] else imap (legacy_input i sc base) (s_ins t) in
      let outs :=
        if base =? SIGHASH_NONE then Some []
        else if base =? SIGHASH_SINGLE then
          match nth_error (s_outs t) i with
          | Some o => Some (repeat blank_output i ++ [ser_out o])
          | None => None      (* consensus code hashes the constant 1 here; a signer must refuse *)
          end
        else Some (map ser_out (s_outs t)) in
      match outs with
      | None => None
      | Some outs =>
          Some (le_bytes 4 (s_version t)
                ++ spec_compact (Z.of_nat (length ins)) ++ concat ins
                ++ spec_compact (Z.of_nat (length outs)) ++ concat outs
                ++ le_bytes 4 (s_locktime t) ++ le_bytes 4 ht)
      end
  end.

(* ---------------------------------------------------------------------------------- BIP143 *)
Section BIP143.
  Variable sha256 : bytes -> bytes.
  Let dsha (b : bytes) := sha256 (sha256 b).
  Definition zero32 : bytes := repeat 0 32.

  Definition bip143_preimage (t : s_tx) (i : nat) (script_code : bytes) (amount : Z) (ht : Z) : option bytes :=
    let base := Z.land ht 31 in
    let acp := negb (Z.eqb (Z.land ht SIGHASH_ANYONECANPAY) 0) in
    let single := base =? SIGHASH_SINGLE in
    let none := base =? SIGHASH_NONE in
    match nth_error (s_ins t) i with
    | None => None
    | Some x =>
        let hashPrevouts := if acp then zero32 else dsha (concat (map outpoint (s_ins t))) in
        let hashSequence := if acp || single || none then zero32
                            else dsha (concat (map (fun y => le_bytes 4 (s_seq y)) (s_ins t))) in
        let hashOutputs :=
          if negb single && negb none then dsha (concat (map ser_out (s_outs t)))
          else if single then match nth_error (s_outs t) i with Some o => dsha (ser_out o) | None => zero32 end
          else zero32 in
        Some (le_bytes 4 (s_version t) ++ hashPrevouts ++ hashSequence ++ outpoint x ++ ser_bytes script_code
              ++ le_bytes 8 amount ++ le_bytes 4 (s_seq x) ++ hashOutputs ++ le_bytes 4 (s_locktime t) ++ le_bytes 4 ht)
    end.
End BIP143.

(* ---------------------------------------------------------------------------------- BIP341 / BIP342 *)
Section BIP341.
  Variable sha256 : bytes -> bytes.
  Variable tag_bytes : nat -> bytes.   (* 0: "TapLeaf", 1: "TapSighash" as UTF-8 *)

  Definition hash_tag (tag : bytes) (m : bytes) : bytes := sha256 (sha256 tag ++ sha256 tag ++ m).

  (* spent : for every input, the amount and scriptPubKey of the output it spends *)
  Definition sigmsg (t : s_tx) (spent : list (Z * bytes)) (i : nat) (ht : Z) (ext_flag : Z)
             (leaf : option bytes) : option bytes :=
    let acp := negb (Z.eqb (Z.land ht SIGHASH_ANYONECANPAY) 0) in
    let low := Z.land ht 3 in
    match nth_error (s_ins t) i, nth_error spent i with
    | Some x, Some (amt, spk) =>
        let tx_data :=
          (if acp then []
           else sha256 (concat (map outpoint (s_ins t)))
                ++ sha256 (concat (map (fun p => le_bytes 8 (fst p)) spent))
                ++ sha256 (concat (map (fun p => ser_bytes (snd p)) spent))
                ++ sha256 (concat (map (fun y => le_bytes 4 (s_seq y)) (s_ins t))))
          ++ (if (low =? SIGHASH_NONE) || (low =? SIGHASH_SINGLE) then [] else sha256 (concat (map ser_out (s_outs t)))) in
        let input_data :=
          [ext_flag * 2]
          ++ (if acp then outpoint x ++ le_bytes 8 amt ++ ser_bytes spk ++ le_bytes 4 (s_seq x)
              else le_bytes 4 (Z.of_nat i)) in
        let output_data :=
          if low =? SIGHASH_SINGLE then option_map (fun o => sha256 (ser_out o)) (nth_error (s_outs t) i)
          else Some [] in
        let ext :=
          match leaf with
          | Some script => hash_tag (tag_bytes 0) ([192] ++ ser_bytes script) ++ [0] ++ [255; 255; 255; 255]
          | None => []
          end in
        option_map (fun od => [ht] ++ le_bytes 4 (s_version t) ++ le_bytes 4 (s_locktime t)
                              ++ tx_data ++ input_data ++ od ++ ext) output_data
    | _, _ => None
    end.

  Definition taproot_sighash (t : s_tx) (spent : list (Z * bytes)) (i : nat) (ht : Z) (leaf : option bytes) : option bytes :=
    option_map (fun m => hash_tag (tag_bytes 1) ([0] ++ m))
               (sigmsg t spent i ht (match leaf with Some _ => 1 | None => 0 end) leaf).
End BIP341.
