(* Consensus script serialisation, written from Bitcoin Core (script.h: CScript::operator<<,
   CScript::push_int64, CScriptNum::serialize, CScriptNum::set_vch with fRequireMinimal). *)
From Coq Require Import ZArith String List Bool.
From BU Require Import Lib.Bytes Spec.Opcodes.
Import ListNotations.
Open Scope list_scope.
Open Scope Z_scope.

(* CScript::operator<<(const std::vector<unsigned char>&) *)
Definition spec_push (d : bytes) : bytes :=
  let len := Z.of_nat (length d) in
  if len <? 76 then len :: d
  else if len <=? 255 then 76 :: len :: d
  else if len <=? 65535 then 77 :: le_bytes 2 len ++ d
  else 78 :: le_bytes 4 len ++ d.

(* CScriptNum::serialize for value >= 0: base-256 digits, least significant first,
   then a 0x00 byte if the last digit has its top bit set *)
Fixpoint sn_digits (fuel : nat) (v : Z) : bytes :=
  match fuel with
  | O => []
  | S f => if v <=? 0 then [] else (v mod 256) :: sn_digits f (v / 256)
  end.

Definition spec_scriptnum (n : Z) : bytes :=
  let r := sn_digits (S (Z.to_nat (Z.log2 n))) n in
  if 128 <=? last r 0 then r ++ [0] else r.

(* CScriptNum(vch, fRequireMinimal = true) restricted to non-negative results:
   None when the encoding is not minimal or encodes a negative number. Size limit not applied. *)
Definition scriptnum_decode_minimal (v : bytes) : option Z :=
  match rev v with
  | [] => Some 0
  | top :: rest_rev =>
      if Z.eqb (Z.land top 127) 0
      then (* top byte is 0x00 or 0x80: allowed only if the byte below has its high bit set *)
        match rest_rev with
        | [] => None
        | below :: _ => if 128 <=? below then (if top =? 0 then Some (le_val v) else None) else None
        end
      else if 128 <=? top then None (* negative *) else Some (le_val v)
  end.

Fixpoint spec_assoc (k : string) (l : list (string * Z)) : option Z :=
  match l with
  | [] => None
  | (k', v) :: t => if String.eqb k k' then Some v else spec_assoc k t
  end.

(* CScript::push_int64 *)
Definition spec_int (n : Z) : bytes :=
  if n =? 0 then [0]
  else if (1 <=? n) && (n <=? 16) then [80 + n]
  else spec_push (spec_scriptnum n).

(* the byte encoding of one script element; opcode names resolve in the consensus table *)
Inductive stok := SOp (name : string) | SInt (n : Z) | SData (d : bytes).

Definition spec_tok (t : stok) : option bytes :=
  match t with
  | SOp name => option_map (fun b => [b]) (spec_assoc name consensus_opcodes)
  | SInt n => Some (spec_int n)
  | SData d => Some (spec_push d)
  end.

Fixpoint spec_assemble (ts : list stok) : option bytes :=
  match ts with
  | [] => Some []
  | t :: r => match spec_tok t, spec_assemble r with
              | Some a, Some b => Some (a ++ b)
              | _, _ => None
              end
  end.

(* Disassembly as any consensus-following decoder does it (GetScriptOp): opcode bytes by value,
   pushes as their data.  Returns None on a truncated push. *)
Inductive sitem := IOp (b : Z) | IPush (d : bytes).

Fixpoint spec_disassemble (fuel : nat) (raw : bytes) : option (list sitem) :=
  match fuel with
  | O => match raw with [] => Some [] | _ => None end
  | S f =>
      match raw with
      | [] => Some []
      | b :: t =>
          let take (hdr : nat) :=
            if (hdr <=? length t)%nat then
              let n := Z.to_nat (le_val (firstn hdr t)) in
              let body := skipn hdr t in
              if (n <=? length body)%nat then
                option_map (fun r => IPush (firstn n body) :: r) (spec_disassemble f (skipn n body))
              else None
            else None in
          if b =? 0 then option_map (fun r => IPush [] :: r) (spec_disassemble f t)
          else if b <=? 75 then
            let n := Z.to_nat b in
            if (n <=? length t)%nat then option_map (fun r => IPush (firstn n t) :: r) (spec_disassemble f (skipn n t))
            else None
          else if b =? 76 then take 1%nat
          else if b =? 77 then take 2%nat
          else if b =? 78 then take 4%nat
          else option_map (fun r => IOp b :: r) (spec_disassemble f t)
      end
  end.
