(* The Bitcoin transaction wire format, written from the protocol documentation / BIP144 /
   Bitcoin Core primitives/transaction.h (SerializeTransaction), independently of the library.
   Numeric fields are numbers, scripts are byte strings, a txid is the 32 bytes in display order. *)
From Coq Require Import ZArith List Bool.
From BU Require Import Lib.Bytes Spec.CompactSize.
Import ListNotations.
Open Scope Z_scope.

Record s_in := { s_txid : bytes; s_vout : Z; s_script : bytes; s_seq : Z }.
Record s_out := { s_amount : Z; s_spk : bytes }.
Record s_tx := { s_version : Z; s_ins : list s_in; s_outs : list s_out; s_locktime : Z;
                 s_witness : option (list (list bytes)) (* Some: BIP144 encoding, one stack per input *) }.

Definition ser_bytes (b : bytes) : bytes := spec_compact (Z.of_nat (length b)) ++ b.

Definition ser_in (i : s_in) : bytes :=
  rev (s_txid i) ++ le_bytes 4 (s_vout i) ++ ser_bytes (s_script i) ++ le_bytes 4 (s_seq i).

Definition ser_out (o : s_out) : bytes := le_bytes 8 (s_amount o) ++ ser_bytes (s_spk o).

Definition ser_stack (st : list bytes) : bytes :=
  spec_compact (Z.of_nat (length st)) ++ concat (map ser_bytes st).

Definition ser_vec {A} (f : A -> bytes) (l : list A) : bytes :=
  spec_compact (Z.of_nat (length l)) ++ concat (map f l).

(* witness-stripped ("legacy") serialisation *)
Definition spec_serialize_stripped (t : s_tx) : bytes :=
  le_bytes 4 (s_version t) ++ ser_vec ser_in (s_ins t) ++ ser_vec ser_out (s_outs t) ++ le_bytes 4 (s_locktime t).

(* full serialisation: BIP144 when a witness structure is present *)
Definition spec_serialize (t : s_tx) : bytes :=
  match s_witness t with
  | None => spec_serialize_stripped t
  | Some w =>
      le_bytes 4 (s_version t) ++ [0; 1] ++ ser_vec ser_in (s_ins t) ++ ser_vec ser_out (s_outs t)
      ++ concat (map ser_stack w) ++ le_bytes 4 (s_locktime t)
  end.

Section Ids.
  Variable sha256 : bytes -> bytes.
  Definition spec_txid (t : s_tx) : bytes := rev (sha256 (sha256 (spec_serialize_stripped t))).
  Definition spec_wtxid (t : s_tx) : bytes := rev (sha256 (sha256 (spec_serialize t))).
End Ids.

(* BIP141 size accounting *)
Definition spec_weight (t : s_tx) : Z :=
  3 * Z.of_nat (length (spec_serialize_stripped t)) + Z.of_nat (length (spec_serialize t)).
Definition spec_vsize (t : s_tx) : Z := (spec_weight t + 3) / 4.
