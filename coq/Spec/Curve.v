(* The abstract prime-order curve the algebraic theorems are stated over: affine points with the
   negation (x, y) -> (x, p - y), an addition satisfying the group laws on the points of the curve,
   a generator of order exactly n, no point of order two, x determines a point up to sign, and lift_x
   returning the even-y point with a given x (for x >= 0 only: the code calls lift_x on int.from_bytes
   values, and lift_x of Model/EC.v returns an unreduced abscissa on negative x).  These are premises of the theorems (DESIGN.md 5.5),
   never axioms; Proofs/ToyCurve.v shows the affine formulas of Model/EC.v satisfy all of them on a
   small curve of the same shape. *)
From Coq Require Import ZArith List Bool.
From BU Require Import Lib.Bytes Model.EC.
Open Scope Z_scope.

Section Laws.
  Variables (p n : Z) (add : point -> point -> point) (lift : Z -> point) (G : point).
  Variable on : point -> Prop.

  Definition neg (P : point) : point :=
    match P with None => None | Some (x, y) => Some (x, p - y) end.

  Fixpoint smul_nat (k : nat) (P : point) : point :=
    match k with O => None | S k' => add P (smul_nat k' P) end.

  (* scalar multiplication as iterated addition; negative scalars through negation *)
  Definition smul (k : Z) (P : point) : point :=
    if k <? 0 then neg (smul_nat (Z.to_nat (- k)) P) else smul_nat (Z.to_nat k) P.

  Record curve_laws : Prop := {
    cl_p : 2 < p /\ Z.odd p = true;
    cl_n : 2 < n;
    cl_on_O : on None;
    cl_on_G : on G /\ G <> None;
    cl_on_add : forall P Q, on P -> on Q -> on (add P Q);
    cl_on_neg : forall P, on P -> on (neg P);
    cl_add_O_l : forall P, add None P = P;
    cl_add_O_r : forall P, add P None = P;
    cl_add_comm : forall P Q, on P -> on Q -> add P Q = add Q P;
    cl_add_assoc : forall P Q R, on P -> on Q -> on R -> add P (add Q R) = add (add P Q) R;
    cl_add_neg : forall P, on P -> add P (neg P) = None;
    cl_coords : forall x y, on (Some (x, y)) -> 0 <= x < p /\ 0 < y < p;
    cl_order : smul n G = None /\ (forall k, 0 < k < n -> smul k G <> None);
    cl_cyclic : forall P, on P -> exists k, 0 <= k < n /\ P = smul k G;
    cl_x_det : forall x y y', on (Some (x, y)) -> on (Some (x, y')) -> y' = y \/ y' = p - y;
    cl_lift_some : forall x P, 0 <= x -> lift x = P -> P <> None -> exists y, P = Some (x, y) /\ on P /\ Z.even y = true;
    cl_lift_none : forall x, 0 <= x -> lift x = None -> forall y, ~ on (Some (x, y))
  }.
End Laws.
